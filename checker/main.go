// verifcheck decides structural necessary conditions of the compose-go
// properties C01..C20 from the source of /repo (static analysis only).
package main

import (
	"runtime/debug"
	"encoding/json"
	"flag"
	"fmt"
	"golang.org/x/tools/go/ssa"
	"os"
	"path/filepath"
	"sort"
	"strconv"
	"strings"
	"time"

	"verifcheck/internal/prog"
	"verifcheck/internal/report"
	"verifcheck/internal/rules"
	"verifcheck/internal/tab"
)

func main() {
	repo := flag.String("repo", "/repo", "repository to analyse")
	verif := flag.String("verif", "/verif", "verification directory (known_findings.json, expectations.json, evidence/)")
	propID := flag.String("prop", "", "property id (C01..C20)")
	tier := flag.String("tier", "quick", "quick|thorough")
	explain := flag.String("explain", "", "print a violation file")
	list := flag.Bool("list", false, "list obligations of the property on stdout (debug)")
	noEvidence := flag.Bool("no-evidence", false, "do not write evidence (used by the self-test on scratch copies)")
	flag.BoolVar(&quietChild, "child", false, "run as a self-test child: print only the summary")
	snapshot := flag.Bool("snapshot", false, "write the reference list of module functions (funcs.json) for the current tree and exit")
	flag.Parse()
	if *snapshot {
		p, err := prog.Load(*repo, false, nil)
		if err != nil {
			fmt.Println(err)
			os.Exit(2)
		}
		if err := report.WriteJSON(filepath.Join(*verif, "funcs.json"), p.Snapshot()); err != nil {
			fmt.Println(err)
			os.Exit(2)
		}
		fmt.Printf("%d functions written to %s\n", len(p.Snapshot()), filepath.Join(*verif, "funcs.json"))
		_ = report.WriteJSON(filepath.Join(*verif, "fields.json"), p.FieldSnapshot())
		fmt.Printf("%d fields written to %s\n", len(p.FieldSnapshot()), filepath.Join(*verif, "fields.json"))
		_ = report.WriteJSON(filepath.Join(*verif, "types.json"), p.TypeSnapshot())
		fmt.Printf("%d types written to %s\n", len(p.TypeSnapshot()), filepath.Join(*verif, "types.json"))
		if tabs, err := tab.ExtractTables(p); err == nil {
			ref := map[string]tab.TableRef{}
			for n, t := range tabs {
				tr := tab.TableRef{ValType: t.ValType}
				for _, row := range t.Rows {
					tr.Patterns = append(tr.Patterns, row.Pattern)
				}
				ref[n] = tr
			}
			_ = report.WriteJSON(filepath.Join(*verif, "tables.json"), ref)
			fmt.Printf("%d tables written to %s\n", len(ref), filepath.Join(*verif, "tables.json"))
		}
		loops := rules.NewCtx(p, "quick").LoopSnapshot()
		_ = report.WriteJSON(filepath.Join(*verif, "loops.json"), loops)
		fmt.Printf("%d map ranges written to %s\n", len(loops), filepath.Join(*verif, "loops.json"))
		return
	}
	prog.SnapshotPath = filepath.Join(*verif, "funcs.json")
	if *explain != "" {
		b, err := os.ReadFile(*explain)
		if err != nil {
			fmt.Println(err)
			os.Exit(2)
		}
		fmt.Println(string(b))
		return
	}
	def, ok := properties[*propID]
	if !ok {
		fmt.Fprintf(os.Stderr, "unknown property %q\n", *propID)
		os.Exit(2)
	}
	seed := 0
	if s := os.Getenv("VERIF_SEED"); s != "" {
		seed, _ = strconv.Atoi(s)
	}
	t0 := time.Now()
	code := run(def, *propID, *repo, *verif, *tier, seed, *list, *noEvidence, t0)
	os.Exit(code)
}

var quietChild bool

type runMeta struct {
	LoadS float64
}

func fail(id, verif, tier string, seed int, t0 time.Time, noEvidence bool, explanation string, msg string) int {
	// an analysis that cannot run gives no verdict: report it as a violation of the run
	vdir := filepath.Join(verif, "evidence", "violations")
	path := filepath.Join(vdir, id+"-0.json")
	if !noEvidence {
		_ = report.WriteJSON(path, map[string]any{"property": id, "rule": "RUN", "construct": "analysis", "why": msg})
		ev := report.Evidence{PropertyID: id, Tier: tier, Seed: seed, Level: "other",
			Coverage:    map[string]any{"explanation": explanation, "obligations": 1, "discharged": 0, "run_error": msg},
			Assumptions: []string{}, WallS: time.Since(t0).Seconds(), Violations: 1}
		_ = report.WriteJSON(filepath.Join(verif, "evidence", id+".json"), ev)
	}
	fmt.Printf("RUN-ERROR property=%s %s\n", id, msg)
	fmt.Printf("VIOLATION property=%s replay=%s\n", id, path)
	return 1
}

func run(def *propertyDef, id, repo, verif, tier string, seed int, list, noEvidence bool, t0 time.Time) int {
	ff, err := report.LoadFindings(filepath.Join(verif, "known_findings.json"))
	if err != nil {
		return fail(id, verif, tier, seed, t0, noEvidence, def.Decides, err.Error())
	}
	ex, err := report.LoadExpectations(filepath.Join(verif, "expectations.json"))
	if err != nil {
		return fail(id, verif, tier, seed, t0, noEvidence, def.Decides, err.Error())
	}
	p, err := prog.Load(repo, tier == "thorough" && def.ThoroughDeps, nil)
	if err != nil {
		return fail(id, verif, tier, seed, t0, noEvidence, def.Decides, err.Error())
	}
	loadS := time.Since(t0).Seconds()
	ctx := rules.NewCtx(p, tier)
	ctx.VerifDir = verif
	ctx.Seed = seed
	var obs []report.Obligation
	func() {
		defer func() {
			if r := recover(); r != nil {
				if os.Getenv("VERIF_TRACE") != "" {
					debug.PrintStack()
				}
				obs = append(obs, report.Obligation{Rule: "RUN", Key: "checker panic", Status: report.Violation, Why: fmt.Sprint(r)})
			}
		}()
		obs = def.Run(ctx)
	}()
	report.SortObligations(obs)
	report.DedupKeys(obs)
	obs, stale := report.Resolve(id, obs, ff, ex)
	obs, stale = movedJustifications(p, obs, stale, ex)
	obs, stale = respelledLoops(verif, obs, stale, ex)
	obs = justifiedLoopsStillCovered(verif, obs)

	// instance floors (anti-vacuity)
	perRule := map[string]int{}
	for _, o := range obs {
		if o.Status != report.Info {
			perRule[o.Rule]++
		}
	}
	if fl, ok := ex.Floors[id]; ok {
		var rs []string
		for r := range fl {
			rs = append(rs, r)
		}
		sort.Strings(rs)
		for _, r := range rs {
			if perRule[r] < fl[r] {
				obs = append(obs, report.Obligation{Rule: "FLOOR", Key: r, Status: report.Violation,
					Why: fmt.Sprintf("rule %s sees %d instances, floor confirmed by hand is %d: the rule no longer sees what it is about", r, perRule[r], fl[r])})
			}
		}
	} else {
		obs = append(obs, report.Obligation{Rule: "FLOOR", Key: "floors missing for " + id, Status: report.Violation,
			Why: "expectations.json has no instance floors for this property"})
	}

	counts := map[report.Status]int{}
	perRuleStatus := map[string]map[string]int{}
	for _, o := range obs {
		counts[o.Status]++
		if perRuleStatus[o.Rule] == nil {
			perRuleStatus[o.Rule] = map[string]int{}
		}
		perRuleStatus[o.Rule][string(o.Status)]++
	}
	if list {
		for _, o := range obs {
			fmt.Printf("%-13s %-10s %s\t%s\t%s\n", o.Status, o.Rule, o.Pos, o.Key, o.Why)
		}
	}
	// output
	vdir := filepath.Join(verif, "evidence", "violations")
	if !noEvidence {
		old, _ := filepath.Glob(filepath.Join(vdir, id+"-*.json"))
		for _, f := range old {
			_ = os.Remove(f)
		}
	}
	nv := 0
	var samples []report.Obligation
	sampleSeen := map[string]int{}
	for _, o := range obs {
		switch o.Status {
		case report.Known:
			fmt.Printf("KNOWN-FINDING: property=%s %s %s -- %s\n", id, o.Rule, o.Key, o.Why)
		case report.Violation:
			path := filepath.Join(vdir, fmt.Sprintf("%s-%d.json", id, nv))
			if !noEvidence {
				_ = report.WriteJSON(path, map[string]any{"property": id, "rule": o.Rule, "construct": o.Key, "pos": o.Pos,
					"why": o.Why, "call_path": o.Path, "detail": o.Detail})
			}
			fmt.Printf("  %s %s at %s: %s\n", o.Rule, o.Key, o.Pos, o.Why)
			fmt.Printf("VIOLATION property=%s replay=%s\n", id, path)
			nv++
		}
		k := o.Rule + "/" + string(o.Status)
		if sampleSeen[k] < 3 {
			sampleSeen[k]++
			samples = append(samples, o)
		}
	}
	for _, s := range stale {
		fmt.Printf("NOTE property=%s %s\n", id, s)
	}
	var thoroughInfo map[string]any
	if tier == "thorough" && !noEvidence {
		var extra []report.Obligation
		thoroughInfo, extra = thoroughExtras(id, repo, verif, seed, p, ctx)
		for _, o := range extra {
			if o.Status == report.Violation {
				path := filepath.Join(vdir, fmt.Sprintf("%s-%d.json", id, nv))
				_ = report.WriteJSON(path, map[string]any{"property": id, "rule": o.Rule, "construct": o.Key, "why": o.Why})
				fmt.Printf("  %s %s: %s\n", o.Rule, o.Key, o.Why)
				fmt.Printf("VIOLATION property=%s replay=%s\n", id, path)
				nv++
			}
			counts[o.Status]++
			obs = append(obs, o)
		}
	}
	obligations := len(obs) - counts[report.Info]
	wall := time.Since(t0).Seconds()
	ev := report.Evidence{PropertyID: id, Tier: tier, Seed: seed, Level: "other", WallS: wall, Violations: nv,
		Assumptions: def.Assumptions,
		Coverage: map[string]any{
			"explanation":        "DECIDES: " + def.Decides + " DOES NOT DECIDE: " + def.NotDecided,
			"obligations":        obligations,
			"discharged":         counts[report.Discharged],
			"justified":          counts[report.Justified],
			"known_findings":     counts[report.Known],
			"violations":         nv,
			"informational":      counts[report.Info],
			"rule_instances":     perRuleStatus,
			"rules":              def.Rules,
			"samples":            samples,
			"stale_entries":      stale,
			"notes":              ctx.Notes,
			"stats":              ctx.Stats,
			"packages_analysed":  len(p.Pkgs),
			"functions_analysed": len(p.Funcs),
			"load_s":             loadS,
			"checker_cmd":        strings.Join(os.Args, " "),
			"trusted_base":       def.Trusted,
			"exhaustive":         true,
		}}
	if thoroughInfo != nil {
		for k, v := range thoroughInfo {
			ev.Coverage[k] = v
		}
	}
	if !noEvidence {
		if err := report.WriteJSON(filepath.Join(verif, "evidence", id+".json"), ev); err != nil {
			fmt.Println("cannot write evidence:", err)
			return 2
		}
		// full obligation list beside the evidence, for the reader
		_ = report.WriteJSON(filepath.Join(verif, "evidence", "obligations", id+".json"), obs)
	}
	fmt.Printf("SUMMARY property=%s tier=%s obligations=%d discharged=%d justified=%d known=%d violations=%d wall=%.1fs\n",
		id, tier, obligations, counts[report.Discharged], counts[report.Justified], counts[report.Known], nv, wall)
	if nv > 0 {
		return 1
	}
	return 0
}

var _ = json.Marshal

// movedJustifications: a justified construct that moved, unchanged, into a helper extracted from the justified
// function keeps its justification. Conditions: the violation sits in a function the reference snapshot does not
// have (a new helper); an entry of the same rule with the same construct term is stale; the function named by
// that entry calls the new helper (statically, up to three levels).
func movedJustifications(p *prog.Program, obs []report.Obligation, stale []string, ex *report.Expectations) ([]report.Obligation, []string) {
	term := func(key string) (string, string) {
		i := strings.Index(key, " :: ")
		if i < 0 {
			return "", key
		}
		t := key[i+4:]
		if j := strings.LastIndex(t, " #"); j >= 0 {
			if _, err := strconv.Atoi(t[j+2:]); err == nil {
				t = t[:j]
			}
		}
		return key[:i], t
	}
	// the construct without its base operand (which becomes a parameter when the code moves into a helper)
	shape := func(t string) string {
		i := strings.Index(t, "(")
		if i < 0 || !strings.HasSuffix(t, ")") {
			return t
		}
		depth, j := 0, i+1
		for ; j < len(t)-1; j++ {
			switch t[j] {
			case '(', '[', '{':
				depth++
			case ')', ']', '}':
				depth--
			}
			if t[j] == ',' && depth == 0 {
				break
			}
		}
		return t[:i+1] + "_" + t[j:]
	}
	// a map store `<base>[<key>] = <value>` without its base operand
	storeShape := func(t string) string {
		k := strings.Index(t, "] = ")
		if k < 0 {
			return ""
		}
		depth := 0
		for j := k; j >= 0; j-- {
			switch t[j] {
			case ']':
				depth++
			case '[':
				depth--
				if depth == 0 {
					return "_" + t[j:]
				}
			}
		}
		return ""
	}
	staleSet := map[string]bool{}
	for _, s := range stale {
		staleSet[s] = true
	}
	reaches := func(from, to *ssa.Function) bool {
		seen := map[*ssa.Function]bool{}
		var walk func(f *ssa.Function, d int) bool
		walk = func(f *ssa.Function, d int) bool {
			if f == nil || seen[f] || d == 0 {
				return false
			}
			seen[f] = true
			for _, b := range f.Blocks {
				for _, in := range b.Instrs {
					// a function used as a value: a method value (bound-method wrapper), a named function handed on
					for _, op := range in.Operands(nil) {
						if fv, ok := (*op).(*ssa.Function); ok {
							if fv == to || (fv.Synthetic != "" && walk(fv, d)) {
								return true
							}
						}
					}
					if ci, ok := in.(ssa.CallInstruction); ok {
						cal := ci.Common().StaticCallee()
						if cal == nil {
							continue
						}
						if cal == to || walk(cal, d-1) {
							return true
						}
						for _, af := range cal.AnonFuncs {
							if af == to {
								return true
							}
						}
					}
				}
			}
			for _, af := range f.AnonFuncs {
				if af == to || walk(af, d) {
					return true
				}
			}
			return false
		}
		return walk(from, 3)
	}
	for i := range obs {
		o := &obs[i]
		if o.Status != report.Violation {
			continue
		}
		gid, t := term(o.Key)
		g := p.Func(gid)
		if g == nil || !p.IsNewFunc(g) {
			continue
		}
		for j := range ex.Justified {
			e := &ex.Justified[j]
			if e.Rule != o.Rule {
				continue
			}
			fid, et := term(e.Key)
			msg := "justified entry matches no undischarged obligation: " + e.Rule + " " + e.Key
			if (et != t && shape(et) != shape(t) && (storeShape(et) == "" || storeShape(et) != storeShape(t))) || !staleSet[msg] {
				continue
			}
			f := p.Func(fid)
			if f == nil {
				// the justified closure itself moved: start from the function it belonged to
				if k := strings.Index(fid, "$"); k > 0 {
					f = p.Func(fid[:k])
				}
			}
			if f == nil || !reaches(f, g) {
				continue
			}
			o.Status = report.Justified
			o.Why = strings.TrimSpace(o.Why + " | justified (construct moved from " + fid + " into the new helper " + gid + "): " + e.Reason)
			delete(staleSet, msg)
			break
		}
	}
	var rest []string
	for _, s := range stale {
		if staleSet[s] {
			rest = append(rest, s)
		}
	}
	return obs, rest
}

// respelledLoops: a justified map range (rule ORD) whose ranged value is now spelled differently - the lookup
// moved into a helper, a type assertion written another way - keeps its justification when the loop is otherwise
// the same one: same function, same map type, same module functions called from its body (loops.json holds the
// signatures of the reference tree). The justification is about what the body does, not about the operand.
func respelledLoops(verif string, obs []report.Obligation, stale []string, ex *report.Expectations) ([]report.Obligation, []string) {
	full := map[string]rules.LoopRef{}
	if b, err := os.ReadFile(filepath.Join(verif, "loops.json")); err != nil || json.Unmarshal(b, &full) != nil {
		return obs, stale
	}
	ref := map[string]string{}
	for k, v := range full {
		ref[k] = v.Sig
	}
	staleSet := map[string]bool{}
	for _, s := range stale {
		staleSet[s] = true
	}
	fn := func(key string) string {
		if i := strings.Index(key, " :: "); i >= 0 {
			return key[:i]
		}
		return key
	}
	for i := range obs {
		o := &obs[i]
		if o.Status != report.Violation {
			continue
		}
		d, ok := o.Detail.(map[string]any)
		if !ok {
			continue
		}
		sig, _ := d["loop_sig"].(string)
		if sig == "" {
			continue
		}
		for j := range ex.Justified {
			e := &ex.Justified[j]
			msg := "justified entry matches no undischarged obligation: " + e.Rule + " " + e.Key
			if e.Rule != o.Rule || !staleSet[msg] || fn(e.Key) != fn(o.Key) || ref[e.Key] != sig {
				continue
			}
			if extra := uncoveredReasons(d, full[e.Key]); len(extra) > 0 {
				continue
			}
			o.Status = report.Justified
			o.Why = strings.TrimSpace(o.Why + " | justified (same loop, ranged value re-spelled; was " + e.Key + "): " + e.Reason)
			delete(staleSet, msg)
			break
		}
	}
	var rest []string
	for _, s := range stale {
		if staleSet[s] {
			rest = append(rest, s)
		}
	}
	return obs, rest
}

// uncoveredReasons: the order-sensitive effects of a loop that the reference tree did not have. A justification was
// written against the effects found then; it says nothing about an effect that appeared since.
func uncoveredReasons(detail map[string]any, ref rules.LoopRef) []string {
	have := map[string]bool{}
	for _, r := range ref.Reasons {
		have[r] = true
	}
	var extra []string
	switch rs := detail["reasons"].(type) {
	case []string:
		for _, r := range rs {
			if !have[r] {
				extra = append(extra, r)
			}
		}
	case []any:
		for _, r := range rs {
			if s, ok := r.(string); ok && !have[s] {
				extra = append(extra, s)
			}
		}
	}
	return extra
}

// justifiedLoopsStillCovered: a justified map range (rule ORD) stays justified only while its order-sensitive
// effects are among those the justification was written against (loops.json). A new effect - the callee now also
// writes a cache through another argument - is reported, with the loop.
func justifiedLoopsStillCovered(verif string, obs []report.Obligation) []report.Obligation {
	full := map[string]rules.LoopRef{}
	if b, err := os.ReadFile(filepath.Join(verif, "loops.json")); err != nil || json.Unmarshal(b, &full) != nil {
		return obs
	}
	for i := range obs {
		o := &obs[i]
		if o.Status != report.Justified {
			continue
		}
		d, ok := o.Detail.(map[string]any)
		if !ok {
			continue
		}
		ref, known := full[o.Key]
		if !known || len(ref.Reasons) == 0 {
			continue
		}
		if extra := uncoveredReasons(d, ref); len(extra) > 0 {
			o.Status = report.Violation
			o.Why = "the justification of this loop was written against other effects; new order-sensitive effect(s): " + strings.Join(extra, " | ") + " || " + o.Why
		}
	}
	return obs
}
