#!/usr/bin/env python3
"""Applies a patch to /repo (or the worktree named by TRY_REPO), runs every property's quick check (no evidence), undoes the patch.
usage: try_patch.py <patch.diff>...   prints, per patch, the properties that report a violation."""
import os, subprocess, sys
from concurrent.futures import ThreadPoolExecutor
ENV = dict(os.environ, GOFLAGS="-mod=mod", GOPROXY="off", GOSUMDB="off", GOTOOLCHAIN="local"); ENV.pop("GOWORK", None)
REPO = os.environ.get("TRY_REPO", "/repo")  # a scratch worktree of /repo while a thorough run reads /repo itself
def run(cmd):
    p = subprocess.run(cmd, env=ENV, capture_output=True, text=True)
    return p.returncode, p.stdout + p.stderr
def check(pid):
    rc, out = run(["/verif/bin/verifcheck", "-repo", REPO, "-verif", "/verif", "-prop", pid, "-no-evidence"])
    return pid, rc, [l.strip() for l in out.splitlines() if l.startswith("  ") or l.startswith("RUN-ERROR")]
for patch in sys.argv[1:]:
    rc, out = run(["git", "-C", REPO, "status", "--porcelain"]); assert out.strip() == "", out
    rc, out = run(["git", "-C", REPO, "apply", "--whitespace=nowarn", os.path.abspath(patch)])
    if rc != 0:
        print(patch, "DOES NOT APPLY", out[:200]); continue
    try:
        with ThreadPoolExecutor(5) as ex:
            res = list(ex.map(check, ["C%02d" % i for i in range(1, 21)]))
    finally:
        run(["git", "-C", REPO, "checkout", "--", "."]); run(["git", "-C", REPO, "clean", "-fdq"])
    alarms = [(p, l) for p, rc, l in res if rc != 0]
    print(patch, "->", "silent" if not alarms else "ALARMS " + ",".join(p for p, _ in alarms))
    for p, l in alarms:
        for x in l[:3]:
            print("    ", p, x[:300])
