#!/usr/bin/env python3
"""Regenerates the per-property texts of MANIFEST.json (level_claimed.text, level_note, technique)
from the property definitions in checker/props.go, so that the manifest says what the checker does."""
import json, re
V = "/verif"
src = open(f"{V}/checker/props.go").read()
m = json.load(open(f"{V}/MANIFEST.json"))
def lit(s):
    return json.loads('"' + s + '"')
defs = {}
for mm in re.finditer(r'def\("(C\d\d)", &propertyDef\{(.*?)\n\t\}\)', src, re.S):
    pid, body = mm.group(1), mm.group(2)
    d = re.search(r'Decides:\s+"((?:[^"\\]|\\.)*)"', body).group(1)
    n = re.search(r'NotDecided:\s+"((?:[^"\\]|\\.)*)"', body).group(1)
    r = re.search(r'Rules:\s+\[\]string\{([^}]*)\}', body).group(1)
    defs[pid] = (lit(d), lit(n), [x.strip().strip('"') for x in r.split(",") if x.strip()])
assert len(defs) == 20, len(defs)
PRE = ("Static analysis of /repo's current source (type-checked syntax, SSA, dominators / control dependence, call graph, "
       "JSON-schema join). Decides, for all inputs and all paths at once, structural necessary conditions of the property: ")
POST = (" It does not decide the behavioural statement itself; this is the level a sound static argument reaches for a "
        "property that quantifies over runtime values.")
TRUST = (" TRUSTED: go/types, go/ssa, go/packages (x/tools v0.29.0); decoded YAML trees are acyclic map/list/scalar trees; the "
         "justified entries of expectations.json (one reason each). Undecided obligations, unresolved anchors, type errors and "
         "checker panics fail the check. The thorough tier re-applies every catalogue mutant and seeded change of the property "
         "(must be reported) and every kept behaviour-preserving refactoring (must stay silent) to scratch copies.")
for ch in m["checks"]:
    d, n, r = defs[ch["property_id"]]
    ch["level_claimed"]["text"] = PRE + d + POST
    ch["level_note"] = "NOT DECIDED: " + n + TRUST
    ch["technique"] = "custom static analysis over go/packages + go/ssa: " + ", ".join(r)
json.dump(m, open(f"{V}/MANIFEST.json", "w"), indent=1)
print("manifest regenerated for", len(m["checks"]), "properties")
