#!/usr/bin/env python3
"""Recomputes the instance floors (anti-vacuity) in expectations.json from the evidence of the last
quick run of every property: floor = max(1, floor(0.6 * instances)) per property and rule.
Run only after the counts were confirmed by reading the obligation lists (evidence/obligations/)."""
import json, os
V = "/verif"
e = json.load(open(f"{V}/expectations.json"))
floors = {}
for i in range(1, 21):
    pid = "C%02d" % i
    ev = json.load(open(f"{V}/evidence/{pid}.json"))
    ri = ev["coverage"]["rule_instances"]
    fl = {}
    for rule, st in ri.items():
        if rule in ("FLOOR", "SELFTEST", "VTA", "RUN"):
            continue
        # only what holds counts towards a floor: a known finding that gets repaired must not trip it
        n = sum(v for k, v in st.items() if k in ("discharged", "justified"))
        if n > 0:
            fl[rule] = max(1, int(n * 0.6))
    floors[pid] = fl
old = e.get("floors", {})
for pid in floors:
    for r in sorted(set(floors[pid]) | set(old.get(pid, {}))):
        a, b = old.get(pid, {}).get(r), floors[pid].get(r)
        if a != b:
            print(pid, r, a, "->", b)
e["floors"] = floors
json.dump(e, open(f"{V}/expectations.json", "w"), indent=1)
