# sourced by every script: offline Go environment for this sandbox
export GOFLAGS=-mod=mod GOPROXY=off GOSUMDB=off GOTOOLCHAIN=local
unset GOWORK
VERIF_DIR="$(cd "$(dirname "${BASH_SOURCE[0]}")/.." && pwd)"
REPO_DIR="${REPO_DIR:-/repo}"
export VERIF_DIR REPO_DIR
