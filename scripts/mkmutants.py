#!/usr/bin/env python3
"""Regenerates /verif/mutants/<property>/<name>.diff from the catalogue below.

Each entry is one source mutation of compose-go that breaks a property (or,
for expect="S", one the static rules are known not to see) while still
compiling. The thorough tier applies every diff to a scratch copy of /repo and
requires the property's rules to report a violation there (kill matrix in the
evidence). Diffs that no longer apply to the current tree are skipped.
"""
import json, os, shutil, subprocess, sys, tempfile

REPO = os.environ.get("REPO_DIR", "/repo")
OUT = os.path.join(os.path.dirname(os.path.abspath(__file__)), "..", "mutants")

# (property, name, expect, file, old, new, what)
CAT = [
 ("C01", "unchecked-service-assert", "K", "loader/extends.go",
  '''	service, ok := s.(map[string]any)
	if !ok {
		return nil, fmt.Errorf("services.%s must be a mapping", name)
	}
	extends, ok := service["extends"]''',
  '''	service := s.(map[string]any)
	extends, ok := service["extends"]''', "checked assertion replaced by an unchecked one (PANIC-TA)"),
 ("C01", "drop-tracker-error", "K", "loader/extends.go",
  '''	tracker, err = tracker.Add(filename, name)
	if err != nil {
		return nil, err
	}
''', '''	if next, err := tracker.Add(filename, name); err == nil {
		tracker = next
	}
''', "extends cycle error ignored: recursion no longer guarded (CYC)"),
 ("C01", "readfile-error-dropped", "K", "loader/loader.go",
  '''		content, err := os.ReadFile(file.Filename)
		if err != nil {
			return nil, nil, err
		}
		file.Content = content''', '''		content, _ := os.ReadFile(file.Filename)
		file.Content = content''', "missing compose file silently skipped (ERR)"),
 ("C01", "project-with-error", "K", "loader/loader.go",
  '''	err = Transform(dict, project)
	if err != nil {
		return nil, err
	}''', '''	err = Transform(dict, project)
	if err != nil {
		return project, err
	}''', "non-nil project returned together with an error (XOR)"),
 ("C01", "dotenv-offbyone", "K", "dotenv/parser.go",
  '''		return value, src[i+1:], nil''', '''		return value, src[i+2:], nil''', "slice one past the closing quote (PANIC-IDX)"),
 ("C01", "alias-cycle-check-removed", "K", "loader/reset.go",
  '''		if err := p.checkForCycle(node.Alias, path); err != nil {
			return nil, err
		}
''', '', "alias expansion no longer guarded (CYC)"),
 ("C02", "ports-sort-removed", "K", "types/types.go", '''	sort.Strings(keys)
''', '', "port keys used in map order (ORD)"),
 ("C02", "overlapping-transformer", "K", "transform/canonical.go",
  '''	transformers["services.*"] = transformService''', '''	transformers["services.*"] = transformService
	transformers["services.*.*"] = transformStringOrList''', "overlapping patterns in a first-match table (A1)"),
 ("C02", "hostslist-unsorted", "K", "types/hostList.go",
  '''func (h HostsList) MarshalYAML() (interface{}, error) {
	list := h.AsList("=")
	sort.Strings(list)''', '''func (h HostsList) MarshalYAML() (interface{}, error) {
	list := h.AsList("=")''', "host list rendered in map order (ORD)"),
 ("C02", "global-cache", "K", "transform/canonical.go",
  '''func Canonical(yaml map[string]any, ignoreParseError bool) (map[string]any, error) {''',
  '''var lastCanonical map[string]any

func Canonical(yaml map[string]any, ignoreParseError bool) (map[string]any, error) {
	lastCanonical = yaml''', "package-level state written by every load (GLOB)"),
 ("C03", "drop-ssh-transformer", "K", "transform/canonical.go", '''	transformers["services.*.build.ssh"] = transformSSH
''', '', "list spelling of build.ssh no longer converted (A3)"),
 ("C03", "dependson-list-arm-removed", "K", "transform/dependson.go",
  '''	case []any:
		d := map[string]any{}
		for _, k := range v {
			name, ok := k.(string)
			if !ok {
				return nil, fmt.Errorf("%s: unsupported value %v", p, k)
			}
			d[name] = map[string]any{
				"condition": "service_started",
				"required":  true,
			}
		}
		return d, nil
	default:''', '''	default:''', "short depends_on list falls into the error default (A3)"),
 ("C04", "drop-labels-merger", "K", "override/merge.go", '''	mergeSpecials["services.*.labels"] = mergeToSequence
''', '', "list vs mapping labels no longer mergeable (A4-merge)"),
 ("C04", "drop-capadd-unique", "K", "override/uncity.go", '''	unique["services.*.cap_add"] = keyValueIndexer
''', '', "cap_add duplicates survive the merge (A4-unique)"),
 ("C04", "command-appended", "K", "override/merge.go",
  '''	mergeSpecials["services.*.command"] = override''', '''	mergeSpecials["services.*.command"] = mergeToSequence''', "command appended instead of replaced (A4-replace)"),
 ("C04", "unicity-after-validate", "K", "loader/loader.go",
  '''		dict, err = override.EnforceUnicity(dict)
		if err != nil {
			return err
		}

		if !opts.SkipValidation {
			// what was merged in from an earlier file or an included project has been through OmitEmpty: its empty lists are nil again
			fixEmptyNotNull(dict)
			if err := schema.Validate(dict); err != nil {
				return fmt.Errorf("validating %s: %w", file.Filename, err)
			}''', '''		if !opts.SkipValidation {
			fixEmptyNotNull(dict)
			if err := schema.Validate(dict); err != nil {
				return fmt.Errorf("validating %s: %w", file.Filename, err)
			}
			dict, err = override.EnforceUnicity(dict)
			if err != nil {
				return err
			}''', "unicity enforced after (and only with) validation (PIPE)"),
 ("C05", "no-deepclone", "K", "loader/extends.go", '''	source := deepClone(base).(map[string]any)''', '''	source := base.(map[string]any)''', "base merged in place (EXT-1)"),
 ("C05", "extends-kept", "K", "loader/extends.go", '''	delete(merged, "extends")
''', '', "extends attribute kept on the result (EXT-2)"),
 ("C05", "nested-resolves-paths", "K", "loader/extends.go", '''		extendsOpts.ResolvePaths = false // we do relative path resolution after file has been loaded''', '''		extendsOpts.ResolvePaths = true''', "extended file resolved twice (EXT-5)"),
 ("C05", "wrong-base-dir", "K", "loader/extends.go", '''		err = paths.ResolveRelativePaths(source, relworkingdir, remotes)''', '''		err = paths.ResolveRelativePaths(source, localdir, remotes)''', "inherited paths resolved against another directory (EXT-5)"),
 ("C06", "always-overwrite", "K", "loader/include.go",
  '''				if reflect.DeepEqual(a, conflict) {
					continue
				}
				return fmt.Errorf("%s.%s conflicts with imported resource", key, name)
			}''', '''				if reflect.DeepEqual(a, conflict) {
					continue
				}
			}''', "conflicting redefinition silently overwritten (INC-1)"),
 ("C06", "configs-not-imported", "K", "loader/include.go",
  '''	if err := importResource(source, target, "configs"); err != nil {
		return err
	}
''', '', "configs of included files dropped (A10)"),
 ("C06", "envfile-wins", "K", "loader/include.go", '''			Environment: environment.Clone().Merge(envFromFile),''', '''			Environment: types.Mapping(envFromFile).Merge(environment),''', "env file values override the parent environment (INC-4)"),
 ("C06", "no-cycle-check", "K", "loader/include.go",
  '''					if f == path {''', '''					if f == r.ProjectDirectory {''', "include chain compared with the wrong value: cycles not detected (CYC)"),
 ("C07", "wrong-binding", "K", "template/template.go", '''		{":-", defaultWhenEmptyOrUnset},''', '''		{":-", defaultWhenUnset},''', "operator bound to the wrong function (TPL-1)"),
 ("C07", "value-reexpanded", "K", "template/template.go",
  '''	value, ok := mapping(substitution)
	if !ok && cfg.logging {''', '''	value, ok := mapping(substitution)
	value, _ = Substitute(value, mapping)
	if !ok && cfg.logging {''', "substituted value expanded again (TPL-3)"),
 ("C07", "default-not-interpolated", "K", "template/template.go",
  '''	name, defaultValue := partition(substitution, sep)
	defaultValue, err := Substitute(defaultValue, mapping)
	if err != nil {
		return "", false, err
	}
	value, ok := mapping(name)
	if !ok || (emptyOrUnset && value == "") {''', '''	name, defaultValue := partition(substitution, sep)
	value, ok := mapping(name)
	if !ok || (emptyOrUnset && value == "") {''', "default text used verbatim (TPL-2)"),
 ("C07", "flipped-condition", "S", "template/template.go", '''	if !ok || (emptyOrUnset && value == "") {''', '''	if !ok && (emptyOrUnset && value == "") {''', "value-level operator semantics: not decided statically"),
 ("C08", "drop-retries-cast", "K", "loader/interpolate.go", '''	servicePath("healthcheck", "retries"):                                      toInt,
''', '', "*uint64 attribute loses its cast row (A5)"),
 ("C08", "hook-loses-float32", "K", "loader/mapstructure.go", '''		case reflect.Float32:
			return toFloat32(from.String())
''', '', "decode hook no longer converts float32 (A5)"),
 ("C08", "interpolate-all-scalars", "K", "interpolation/interpolation.go",
  '''	default:
		return value, nil
	}
}

func newPathError''', '''	default:
		return fmt.Sprint(value), nil
	}
}

func newPathError''', "non-string scalars rewritten by interpolation (INT-1)"),
 ("C09", "json-tag-typo", "K", "types/types.go", '''	CapAdd       []string       `yaml:"cap_add,omitempty" json:"cap_add,omitempty"`''', '''	CapAdd       []string       `yaml:"cap_add,omitempty" json:"cap_adds,omitempty"`''', "JSON key differs from the key the loader reads (A6-tags)"),
 ("C09", "unitbytes-json-removed", "K", "types/bytes.go",
  '''// MarshalJSON makes UnitBytes implement json.Marshaler
func (u UnitBytes) MarshalJSON() ([]byte, error) {
	return []byte(fmt.Sprintf(`"%d"`, u)), nil
}
''', '', "only one of the two marshallers left (A6-siblings)"),
 ("C09", "ssh-colon", "K", "types/ssh.go", '''	return fmt.Sprintf("%s=%s", s.ID, s.Path), nil''', '''	return fmt.Sprintf("%s: %s", s.ID, s.Path), nil''', "rendered separator not understood by the parser (CODEC)"),
 ("C10", "scale-rule-removed", "K", "loader/validate.go",
  '''			if s.Deploy.Replicas != nil && *s.Scale != *s.Deploy.Replicas {
				return fmt.Errorf("services.%s: can't set distinct values on 'scale' and 'deploy.replicas': %w",
					s.Name, errdefs.ErrInvalid)
			}
''', '', "scale/replicas disagreement accepted (INV)"),
 ("C10", "consistency-on-wrong-flag", "K", "loader/loader.go", '''	if !opts.SkipConsistencyCheck {
		err := checkConsistency(project)''', '''	if !opts.SkipValidation {
		err := checkConsistency(project)''', "consistency check gated by the wrong option (PIPE)"),
 ("C10", "inverted-cpus", "S", "loader/validate.go", '''s.Deploy.Resources.Limits.NanoCPUs.Value() != s.CPUS''', '''s.Deploy.Resources.Limits.NanoCPUs.Value() == s.CPUS''', "inverted comparison: value-level"),
 ("C11", "protocol-overwritten", "K", "transform/ports.go", '''		if _, ok := v["protocol"]; !ok {
			v["protocol"] = "tcp"
		}''', '''		v["protocol"] = "tcp"''', "explicit protocol overwritten (DFLT)"),
 ("C11", "context-overwritten", "K", "loader/normalize.go", '''				if build["context"] == nil {
					build["context"] = "."
				}''', '''				build["context"] = "."''', "explicit build context overwritten (DFLT)"),
 ("C11", "wrong-default", "S", "transform/ports.go", '''			v["protocol"] = "tcp"''', '''			v["protocol"] = "udp"''', "default value itself: value-level"),
 ("C12", "drop-secret-resolver", "K", "paths/resolve.go", '''		"secrets.*.file":                         r.maybeUnixPath,
''', '', "secret files no longer resolved (A9)"),
 ("C12", "include-parent-dir", "K", "loader/include.go", '''			WorkingDir:  relworkingdir,''', '''			WorkingDir:  filepath.Join(workingDir, relworkingdir),''', "included model resolved against the parent directory (ORIGIN)"),
 ("C13", "handoff-before-done", "K", "graph/traversal.go", '''		t.done(node, result)
		nodeCh <- node''', '''		nodeCh <- node
		t.done(node, result)''', "vertex handed to the coordinator before it is marked visited (TRV-2)"),
 ("C13", "ready-without-lock", "K", "graph/traversal.go", '''func (t *traversal[S, T]) ready(v *vertex[S]) bool {
	t.mu.Lock()
	defer t.mu.Unlock()
''', '''func (t *traversal[S, T]) ready(v *vertex[S]) bool {
''', "status read without the mutex (R3)"),
 ("C13", "no-enter-gate", "K", "graph/traversal.go", '''	if !t.enter(node) {
		// another worker already acquired this node
		return
	}
''', '''	t.enter(node)
''', "a vertex can be started twice (TRV-1)"),
 ("C13", "limit-without-coordinator", "K", "graph/traversal.go", '''		eg.SetLimit(t.maxConcurrency + 1)''', '''		eg.SetLimit(t.maxConcurrency)''', "coordinator takes a visitor slot: deadlock at limit 1 (TRV-10)"),
 ("C01", "unicity-position-off-by-one", "K", "override/uncity.go", """						keys[key] = len(seq) - 1""", """						keys[key] = len(seq)""", "stored position is one past the end: a redefinition indexes out of range (PANIC-IDX position-map idiom)"),
 ("C01", "unicity-grown-slice-dropped", "K", "override/uncity.go", """						seq = append(seq, entry)
						keys[key] = len(seq) - 1""", """						keys[key] = len(append(seq, entry)) - 1""", "position recorded but the grown slice is dropped (PANIC-IDX position-map idiom)"),
 ("C01", "logging-driver-eq", "K", "override/merge.go", """	if !ok1 || !ok2 || reflect.DeepEqual(d, o) {""", """	if !ok1 || !ok2 || d == o {""", "== on two YAML values panics when both are lists (PANIC-CMP)"),
 ("C01", "extra-hosts-contains", "K", "override/merge.go", """		if !slices.ContainsFunc(right, func(e any) bool { return reflect.DeepEqual(e, v) }) {""", """		if !slices.Contains(right, v) {""", "slices.Contains on []any panics on list elements (PANIC-CMP)"),
 ("C01", "reset-root-nil", "K", "loader/reset.go", """	if resolved == nil {
		// the whole document is tagged !reset: nothing to decode
		return nil
	}
""", "", "nil node decoded when the root is tagged !reset (NILRET)"),
 ("C01", "nameservices-no-kind-check", "K", "loader/loader.go", """	if to.Type() == reflect.TypeOf(types.Services{}) && from.Kind() == reflect.Map {""", """	if to.Type() == reflect.TypeOf(types.Services{}) {""", "MapRange on a non-map services section (PANIC-REFL)"),
 ("C01", "envfile-skip-duplicates", "K", "types/project.go", """		for _, envFile := range service.EnvFiles {
			vars, err := loadEnvFile(envFile, resolve)""", """		seen := map[string]bool{}
		for _, envFile := range service.EnvFiles {
			if seen[envFile.Path] {
				continue
			}
			seen[envFile.Path] = true
			vars, err := loadEnvFile(envFile, resolve)""", "a repeated env_file path is skipped whatever its required flag (REFS)"),
 ("C04", "port-key-typed-verbs", "K", "override/uncity.go", """		return fmt.Sprintf("%v:%v:%v/%v", host, published, target, protocol), nil""", """		return fmt.Sprintf("%s:%s:%d/%s", host, published, target, protocol), nil""", "port key depends on the YAML type of published/target (FMTVERB)"),
 ("C05", "tracker-key-of-base", "K", "loader/extends.go", """	tracker, err = tracker.Add(filename, name)""", """	tracker, err = tracker.Add(filename, ref)""", "chain recorded under the base's name: acyclic diamonds collide (CYC tracker key)"),
 ("C10", "fileobject-external-presence", "K", "validation/validation.go", """			if ext, ok := v["external"]; !ok || ext == false {""", """			if _, ok := v["external"]; !ok {""", "a config with `external: false` and no source loads (EXTVAL)"),
 ("C06", "clone-drops-skipdefaults", "K", "loader/loader.go", """		SkipDefaultValues:          o.SkipDefaultValues,
""", "", "nested loads lose the caller's SkipDefaultValues (CLONE)"),
 ("C19", "convert-in-place", "K", "loader/loader.go", """		dict := make(map[string]interface{}, len(mapping))
		for key, entry := range mapping {
			var newKeyPrefix string
			if keyPrefix == "" {
				newKeyPrefix = key
			} else {
				newKeyPrefix = fmt.Sprintf("%s.%s", keyPrefix, key)
			}
			convertedEntry, err := convertToStringKeysRecursive(entry, newKeyPrefix)
			if err != nil {
				return nil, err
			}
			dict[key] = convertedEntry
		}
		return dict, nil""", """		for key, entry := range mapping {
			var newKeyPrefix string
			if keyPrefix == "" {
				newKeyPrefix = key
			} else {
				newKeyPrefix = fmt.Sprintf("%s.%s", keyPrefix, key)
			}
			convertedEntry, err := convertToStringKeysRecursive(entry, newKeyPrefix)
			if err != nil {
				return nil, err
			}
			mapping[key] = convertedEntry
		}
		return mapping, nil""", "the caller's pre-parsed Config is converted in place and then rewritten by the pipeline (INPUTS-cfg)"),
 ("C14", "profiles-not-copied", "K", "types/project.go", """	newProject.Profiles = append(profiles[:0:0], profiles...)""", """	newProject.Profiles = profiles""", "the result keeps the caller's slice (IMM-I2 on arguments)"),
 ("C13", "stop-one-early", "K", "graph/traversal.go", """				if expect == 0 {
					return nil
				}
""", """				if expect <= 1 {
					return nil
				}
""", "coordinator stops with one vertex outstanding (TRV-8)"),
 ("C13", "count-ctx-wakeups", "K", "graph/traversal.go", """	eg.Go(func() error {
		for {
			select {""", """	eg.Go(func() error {
		for {
			expect--
			select {""", "counter decremented per loop turn, not per received vertex (TRV-8)"),
 ("C13", "unbuffered-handoff", "K", "graph/traversal.go", '''	nodeCh := make(chan *vertex[S], expect)''', '''	nodeCh := make(chan *vertex[S])''', "hand-off can block forever after an error (R5)"),
 ("C14", "no-deepcopy", "K", "types/project.go", '''func (p *Project) WithProfiles(profiles []string) (*Project, error) {
	newProject := p.deepCopy()''', '''func (p *Project) WithProfiles(profiles []string) (*Project, error) {
	newProject := p''', "derivation works on the receiver (IMM)"),
 ("C14", "shallow-labels", "K", "types/derived.gen.go", '''	dst.Isolation = src.Isolation
	if src.Labels != nil {
		dst.Labels = make(map[string]string, len(src.Labels))
		deriveDeepCopy_4(dst.Labels, src.Labels)
	} else {
		dst.Labels = nil
	}''', '''	dst.Isolation = src.Isolation
	dst.Labels = src.Labels''', "generated copy shares a map (IMM through deepCopy)"),
 ("C14", "visitor-gets-original", "K", "types/project.go", '''		if err := fn(name, service.deepCopy()); err != nil {''', '''		if err := fn(name, &service); err != nil {''', "callback receives a pointer into the project (IMM escape)"),
 ("C15", "no-else", "K", "types/project.go", '''		if service.HasProfile(profiles) {
			enabled[name] = service
		} else {
			disabled[name] = service
		}''', '''		if service.HasProfile(profiles) {
			enabled[name] = service
		}''', "services without a matching profile are lost (PART-1)"),
 ("C15", "delete-before-record", "K", "types/project.go", '''		if service, ok := newProject.Services[name]; ok {
			newProject.DisabledServices[name] = service
			delete(newProject.Services, name)
		}''', '''		if _, ok := newProject.Services[name]; ok {
			delete(newProject.Services, name)
		}''', "disabled service dropped (PART-2)"),
 ("C16", "roles-swapped", "K", "types/project.go", '''		service.Environment = environment.OverrideBy(service.Environment)''', '''		service.Environment = service.Environment.OverrideBy(environment)''', "env files override the service's environment (LAY-2)"),
 ("C16", "required-ignored", "K", "types/project.go", '''		if envFile.Required {
			return nil, fmt.Errorf("env file %s not found: %w", envFile.Path, err)
		}
		return nil, nil''', '''		return nil, nil''', "missing required env file skipped (LAY-gate)"),
 ("C17", "env-before-explicit", "K", "cli/options.go", '''		if options.Name != "" {
			opts.SetProjectName(options.Name, true)
		} else if nameFromEnv, ok := options.Environment[consts.ComposeProjectName]; ok && nameFromEnv != "" {
			opts.SetProjectName(nameFromEnv, true)
		} else {''', '''		if nameFromEnv, ok := options.Environment[consts.ComposeProjectName]; ok && nameFromEnv != "" {
			opts.SetProjectName(nameFromEnv, true)
		} else if options.Name != "" {
			opts.SetProjectName(options.Name, true)
		} else {''', "COMPOSE_PROJECT_NAME beats the explicit name (NAME-1)"),
 ("C17", "empty-name-accepted", "K", "loader/loader.go", '''	if opts.projectName == "" {
		return nil, errors.New("project name must not be empty")
	}
''', '', "load succeeds with an empty name (NAME-3)"),
 ("C17", "osenv-overwrites", "K", "cli/options.go", '''		if _, set := o.Environment[k]; set {
			continue
		}
		o.Environment[k] = v''', '''		o.Environment[k] = v''', "OS variables override explicit ones (ENV)"),
 ("C18", "missing-minus1-test", "K", "dotenv/parser.go", '''		pos := p.indexOfNonSpaceChar(src)
		if pos == -1 {
			return ""
		}
''', '''		pos := p.indexOfNonSpaceChar(src)
''', "slice with index -1 on blank input (PANIC-IDX)"),
 ("C18", "unterminated-accepted", "K", "dotenv/parser.go", '''	return "", "", fmt.Errorf("line %d: unterminated quoted value %s", p.line, src[:valEndIndex])''', '''	return src[:valEndIndex], "", nil''', "unterminated quote accepted (ERRRET)"),
 ("C19", "done-without-lock", "K", "graph/traversal.go", '''func (t *traversal[S, T]) done(v *vertex[S], result T) {
	t.mu.Lock()
	defer t.mu.Unlock()
''', '''func (t *traversal[S, T]) done(v *vertex[S], result T) {
''', "status/results written without the mutex (R3)"),
 ("C19", "return-without-wait", "K", "types/project.go", '''	err := eg.Wait()
	if complete {
		newProject.Services = transformed
	}
	return newProject, err''', '''	if complete {
		newProject.Services = transformed
	}
	return newProject, eg.Wait()''', "collector state read before the join (R2)"),
 ("C19", "version-warning-unlocked", "K", "loader/loader.go", '''	versionWarningMu.Lock()
	defer versionWarningMu.Unlock()
''', '', "package-level slice appended without the mutex (GLOB)"),
 ("C20", "json-not-blanked", "K", "types/types.go", '''func (s SecretConfig) MarshalJSON() ([]byte, error) {
	// secret content is set while loading model. Never marshall it
	if !s.marshallContent {
		s.Content = ""
	}''', '''func (s SecretConfig) MarshalJSON() ([]byte, error) {''', "JSON rendering leaks the secret (SEC-1)"),
 ("C20", "flag-on-receiver", "K", "types/project.go", '''	if opt.secretsContent {
		p = p.deepCopy()
		for name''', '''	if opt.secretsContent {
		for name''', "opt-in flag set on the caller's project (SEC-3 / IMM)"),
 ("C20", "carrier-kept", "K", "loader/loader.go", '''					delete(ext, types.SecretConfigXValue)
''', '', "secret value stays in the extensions and is rendered (SEC-4)"),
 ("C15", "config-refs-into-secret-set", "K", "types/project.go", '''			requiredConfigs[v.Source] = struct{}{}''', '''			requiredSecrets[v.Source] = struct{}{}''', "config references recorded in the set that filters the secrets (PRUNEREFS-kind)"),
 ("C09", "json-section-under-other-key", "K", "types/project.go", '''		m["volumes"] = src.Volumes''', '''		m["volume"] = src.Volumes''', "a section rendered under a key that is not its tag (MARSHALMAP-key)"),
 ("C08", "float32-asked-for-float64", "K", "loader/interpolate.go", '''	return strconv.ParseFloat(value, 64)''', '''	return strconv.ParseFloat(value, 32)''', "size smaller than the type returned (PARSEWIDTH)"),
 ("C18", "key-trim-dropped", "K", "dotenv/parser.go", '''	key = strings.TrimRightFunc(key, unicode.IsSpace)
''', '''	key = strings.TrimRight(key, " ")
''', "the key is no longer trimmed by a class (KEYTRIM)"),
 ("C12", "evalsymlinks-of-parent", "K", "utils/pathutils.go", '''			target, err := filepath.EvalSymlinks(currentPath)''', '''			target, err := filepath.EvalSymlinks(filepath.Dir(currentPath))''', "the path evaluated is not the path tested (SYMEVAL)"),
 ("C17", "loadmodel-without-environment", "K", "cli/options.go", '''	configDetails.Environment = o.Environment
''', '''''', "LoadModel hands the loader no environment (CLIENV)"),
 ("C20", "carried-value-outlives-environment", "K", "loader/loader.go", '''					if env, _ := v["environment"].(string); env != "" {
						// Return a map with the Content field populated
						v["Content"] = val
					}''', '''					v["Content"] = val''', "the carried value becomes the content although `environment` was reset (SEC-8b)"),
 ("C09", "ulimit-json-through-tags", "K", "types/types.go", '''	return json.Marshal(struct {
		Soft int `json:"soft"`
		Hard int `json:"hard"`
	}{
		Soft: u.Soft,
		Hard: u.Hard,
	})''', '''	return json.Marshal(*u)''', "required soft / hard dropped by omitempty when zero (OMITREQ)"),
 ("C09", "envfile-format-not-rendered", "K", "types/envfile.go", '''	if e.Format != "" {
		m["format"] = e.Format
	}
''', '''''', "the format is still tested for the short form but no longer rendered (MARSHALALL: the value must flow into the result)"),
 ("C13", "coordinator-returns-on-cancel", "K", "graph/traversal.go", '''				<-started
''', '''''', "the coordinator frees its slot as soon as the context is cancelled (FAN-SLOT)"),
 ("C06", "config-env-written-as-content", "K", "loader/environment.go", '''			config[types.SecretConfigXValue] = found''', '''			config["content"] = found''', "an included config from the environment gets `content` next to `environment` (REVALID)"),
 ("C18", "empty-initial-name", "K", "dotenv/parser.go", '''	key, offset, inherited := src, len(src), true
''', '''	key, offset, inherited := "", 0, false
''', "a name at the end of the source is lost again (KEYTRIM-src)"),
 ("C09", "bytes-text-not-read-back", "K", "types/bytes.go", '''		if n, err := strconv.ParseInt(v, 10, 64); err == nil {
			*u = UnitBytes(n)
			return nil
		}
''', '''		_ = strconv.Itoa
''', "the decimal text the marshallers render is no longer parsed as a signed number (CODECINT)"),
 ("C04", "empty-document-ends-file", "K", "loader/loader.go", '''			processor = reset
''', '''			if raw == nil {
				break
			}
			processor = reset
''', "the document loop is left on an empty document (MULTIDOC)"),
 ("C12", "dangling-link-returns-raw", "K", "paths/unix.go", '''	return utils.ResolveSymbolicLink(str)''', '''	resolved, err := utils.ResolveSymbolicLink(str)
	if err != nil {
		return value, nil
	}
	return resolved, nil''', "a failed link resolution returns the raw value and no error (ERRMUST)"),
 ("C06", "validate-before-nil-repair", "K", "loader/loader.go",
  '''			fixEmptyNotNull(dict)
			if err := schema.Validate(dict); err != nil {''',
  '''			if err := schema.Validate(dict); err != nil {''', "the merged tree is validated with the nil lists OmitEmpty left in an earlier file / an included project (VALIDNIL; the defect repaired by 4d6dc3a)"),
 ("C04", "validate-before-nil-repair", "K", "loader/loader.go",
  '''			fixEmptyNotNull(dict)
			if err := schema.Validate(dict); err != nil {''',
  '''			if err := schema.Validate(dict); err != nil {''', "`[]` in the first of two files makes the merged model invalid (VALIDNIL)"),
 ("C04", "volume-key-not-cleaned", "K", "override/uncity.go",
  '''		return path.Clean(volume.Target), nil''',
  '''		return volume.Target, nil''', "short-syntax mounts keyed by the target as written: /data/ and /data are two entries (IDXCLEAN; the defect repaired by b7b0932)"),
 ("C13", "traversal-options-shared", "K", "graph/traversal.go",
  '''func newTraversal[S, T any](fn CollectorFn[S, T]) *traversal[S, T] {
	return &traversal[S, T]{
		Options: &Options{},''',
  '''var sharedOptions = Options{}

func newTraversal[S, T any](fn CollectorFn[S, T]) *traversal[S, T] {
	return &traversal[S, T]{
		Options: &sharedOptions,''', "every walk writes its options into one package-level value (GLOBADDR)"),
 ("C05", "memo-in-extended-files-map", "K", "loader/extends.go",
  '''		baseServices, processor, err = getExtendsBaseFromFile(ctx, name, ref, filename, refFilename, opts, tracker)''',
  '''		baseServices, processor, err = getExtendsBaseFromFile(ctx, name, ref, filename, refFilename, opts, tracker)
		services = baseServices''', "the resolved service is recorded in the extended file's services: resolved twice when a dependent is visited first (EXTMEMO; the defect repaired by b6f377f)"),
 ("C02", "memo-in-extended-files-map", "K", "loader/extends.go",
  '''		baseServices, processor, err = getExtendsBaseFromFile(ctx, name, ref, filename, refFilename, opts, tracker)''',
  '''		baseServices, processor, err = getExtendsBaseFromFile(ctx, name, ref, filename, refFilename, opts, tracker)
		services = baseServices''', "load succeeds or fails depending on which service the map range visits first (EXTMEMO)"),
]


def main():
    shutil.rmtree(OUT, ignore_errors=True)
    tmp = tempfile.mkdtemp(prefix="mkmut")
    try:
        subprocess.check_call(["rsync", "-a", "--exclude", ".git", REPO + "/", tmp + "/src/"])
        subprocess.check_call(["git", "init", "-q"], cwd=tmp + "/src")
        subprocess.check_call(["git", "add", "-A"], cwd=tmp + "/src")
        subprocess.check_call(["git", "-c", "user.email=a@b", "-c", "user.name=x", "commit", "-qm", "base"], cwd=tmp + "/src")
        index = []
        for prop, name, expect, path, old, new, what in CAT:
            f = os.path.join(tmp, "src", path)
            s = open(f).read()
            if s.count(old) != 1:
                print("SKIP (anchor text not unique/present):", prop, name, s.count(old))
                continue
            open(f, "w").write(s.replace(old, new))
            d = subprocess.run(["git", "diff"], cwd=tmp + "/src", capture_output=True, text=True).stdout
            subprocess.check_call(["git", "checkout", "-q", "--", "."], cwd=tmp + "/src")
            os.makedirs(os.path.join(OUT, prop), exist_ok=True)
            open(os.path.join(OUT, prop, name + ".diff"), "w").write(d)
            index.append({"property": prop, "name": name, "expect": expect, "file": path, "what": what})
        json.dump(index, open(os.path.join(OUT, "index.json"), "w"), indent=1)
        print(len(index), "mutants written")
    finally:
        shutil.rmtree(tmp, ignore_errors=True)


if __name__ == "__main__":
    main()
