#!/bin/bash
# MANIFEST.setup_cmd: build the checker and warm the build cache (export data of /repo's dependencies)
set -euo pipefail
. "$(dirname "$0")/env.sh"
"$VERIF_DIR/scripts/build.sh"
(cd "$REPO_DIR" && go build ./... )
echo setup ok
