#!/bin/bash
# usage: check.sh <property> quick|thorough     |  check.sh <property> explain <violation.json>
# Static analysis of /repo's current working tree; nothing from /repo is executed.
set -uo pipefail
. "$(dirname "$0")/env.sh"
PROP="${1:?property id}"; MODE="${2:-quick}"
"$VERIF_DIR/scripts/build.sh" || { echo "VIOLATION property=$PROP replay=$VERIF_DIR/evidence/violations/$PROP-build.json"; exit 1; }
if [ "$MODE" = explain ]; then
  exec "$VERIF_DIR/bin/verifcheck" -explain "${3:?violation file}"
fi
[ -n "${VERIF_TIER:-}" ] && [ "$MODE" = quick ] && [ "$VERIF_TIER" = thorough ] && MODE=thorough
exec "$VERIF_DIR/bin/verifcheck" -repo "$REPO_DIR" -verif "$VERIF_DIR" -prop "$PROP" -tier "$MODE"
