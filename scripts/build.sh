#!/bin/bash
# builds bin/verifcheck from /verif/checker (offline, module cache only) when sources are newer than the binary
set -euo pipefail
. "$(dirname "$0")/env.sh"
BIN="$VERIF_DIR/bin/verifcheck"
if [ ! -x "$BIN" ] || [ -n "$(find "$VERIF_DIR/checker" -newer "$BIN" \( -name '*.go' -o -name go.mod -o -name go.sum \) -print -quit)" ]; then
  mkdir -p "$VERIF_DIR/bin"
  (cd "$VERIF_DIR/checker" && go build -o "$BIN.tmp.$$" . && mv "$BIN.tmp.$$" "$BIN")
fi
