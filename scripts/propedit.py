#!/usr/bin/env python3
"""propedit.py <Cxx> <RULE> <go expression for Run> <clause added to Decides>
Adds a rule to one property definition of checker/props.go: the rule name to Rules, the clause to Decides,
the expression as first argument of the `return cat(` of Run. Run scripts/mkmanifest.py afterwards."""
import re, sys
pid, rule, expr, clause = sys.argv[1:5]
p = '/verif/checker/props.go'
s = open(p).read()
i = s.index('def("%s",' % pid)
j = s.find('\n\tdef("', i + 1)
if j < 0:
    j = len(s)
blk = s[i:j]
m = re.search(r'Decides:\s+"((?:[^"\\]|\\.)*)"', blk)
assert m, 'Decides'
text = m.group(1)
add = clause.replace('\\', '\\\\').replace('"', '\\"')
blk = blk[:m.start(1)] + text + ' ' + add + blk[m.end(1):]
m = re.search(r'Rules:\s+\[\]string\{([^}]*)\}', blk)
assert m, 'Rules'
if '"%s"' % rule not in m.group(1):
    blk = blk[:m.end(1)] + ', "%s"' % rule + blk[m.end(1):]
k = blk.index('return cat(')
blk = blk[:k + len('return cat(')] + expr + ', ' + blk[k + len('return cat('):]
s = s[:i] + blk + s[j:]
open(p, 'w').write(s)
