#!/usr/bin/env python3
"""Confirms and files one independently produced breaking change.

usage: ingest_seed.py <property> <worktree> [<seed-id>]

The worktree (made by a sub-agent that saw only the property text) holds
SEED/patch.diff, SEED/demo_test.go.txt and SEED/notes.md. This script
  1. makes a fresh scratch worktree of /repo HEAD, applies patch.diff, checks
     that the module builds and the pinned suite passes with the change;
  2. adds the demonstration and checks that it FAILS with the change and PASSES
     without it;
  3. applies the patch to another scratch worktree, runs every property's quick
     check on it and records which ones report a violation;
  4. writes /verif/seeded/<id>/{patch.diff, demo_test.go.txt, notes.md, meta.json}.
Nothing is committed to /repo; every scratch worktree is removed.
"""
import json, os, re, shutil, subprocess, sys

RACE = ["-race"] if os.environ.get("RACE") else []  # a demonstration of a data race needs the detector

ENV = dict(os.environ, GOFLAGS="-mod=mod", GOPROXY="off", GOSUMDB="off", GOTOOLCHAIN="local")
ENV.pop("GOWORK", None)
REPO, VERIF = "/repo", "/verif"


def run(cmd, cwd=None, timeout=1500):
    p = subprocess.run(cmd, cwd=cwd, env=ENV, capture_output=True, text=True, timeout=timeout, shell=isinstance(cmd, str))
    return p.returncode, (p.stdout + p.stderr)


def main():
    prop, wt = sys.argv[1], sys.argv[2]
    seed_id = sys.argv[3] if len(sys.argv) > 3 else prop + "-" + os.path.basename(wt.rstrip("/"))
    seed = os.path.join(wt, "SEED")
    patch = os.path.join(seed, "patch.diff")
    demo_txt = open(os.path.join(seed, "demo_test.go.txt")).read()
    m = re.search(r"place in:\s*([\w./-]+)", demo_txt)
    demo_dir = m.group(1).strip("/") if m else None
    if demo_dir is None:
        print("cannot find `// place in:` in demo"); sys.exit(2)
    demo_dir = demo_dir.replace(wt.strip("/") + "/", "")
    ran = []
    scratch = "/tmp/verify_" + seed_id
    run(["git", "-C", REPO, "worktree", "remove", "--force", scratch])
    rc, out = run(["git", "-C", REPO, "worktree", "add", "-q", "--detach", scratch, "HEAD"])
    assert rc == 0, out
    result = {"property": prop, "seed_id": seed_id}
    try:
        # demo passes on the unchanged code
        demo_path = os.path.join(scratch, demo_dir, "zz_seed_demo_test.go")
        open(demo_path, "w").write(demo_txt)
        names = re.findall(r"func (Test\w+)\(", demo_txt)
        runarg = "^(" + "|".join(names) + ")$"
        rc0, out0 = run(["go", "test", "-count=1"] + RACE + ["-run", runarg, "./" + demo_dir + "/"], cwd=scratch)
        ran.append(f"unchanged tree: go test -run '{runarg}' ./{demo_dir}/ -> exit {rc0}")
        result["demo_passes_without_change"] = rc0 == 0
        os.remove(demo_path)
        # apply the change
        rc, out = run(["git", "apply", "--whitespace=nowarn", patch], cwd=scratch)
        if rc != 0:
            print("patch does not apply:", out); result["applies"] = False
            json.dump(result, sys.stdout, indent=1); return
        rc, out = run(["go", "build", "./..."], cwd=scratch)
        ran.append(f"with change: go build ./... -> exit {rc}")
        result["builds"] = rc == 0
        rc, out = run(["go", "test", "-count=1", "./..."], cwd=scratch)
        ran.append(f"with change: go test -count=1 ./... (pinned suite) -> exit {rc}")
        result["suite_passes_with_change"] = rc == 0
        if rc != 0:
            result["suite_output_tail"] = out[-1500:]
        open(demo_path, "w").write(demo_txt)
        rc1, out1 = run(["go", "test", "-count=1"] + RACE + ["-run", runarg, "./" + demo_dir + "/"], cwd=scratch)
        ran.append(f"with change: go test -run '{runarg}' ./{demo_dir}/ -> exit {rc1}")
        result["demo_fails_with_change"] = rc1 != 0
        result["demo_failure_tail"] = out1[-800:]
    finally:
        run(["git", "-C", REPO, "worktree", "remove", "--force", scratch])
        shutil.rmtree(scratch, ignore_errors=True)
    ok = result.get("builds") and result.get("suite_passes_with_change") and result.get("demo_fails_with_change") and result.get("demo_passes_without_change")
    result["confirmed"] = bool(ok)
    detected = {}
    if ok:
        # the quick checks run on a private worktree of /repo HEAD with the patch applied (several seeds can be
        # filed at the same time, and a thorough run reading /repo is not disturbed)
        tree = "/tmp/ingest_" + seed_id
        run(["git", "-C", REPO, "worktree", "remove", "--force", tree])
        rc, out = run(["git", "-C", REPO, "worktree", "add", "-q", "--detach", tree, "HEAD"])
        assert rc == 0, out
        try:
            rc, out = run(["git", "-C", tree, "apply", "--whitespace=nowarn", patch])
            assert rc == 0, out
            def one(pid):
                rc, out = run([os.path.join(VERIF, "bin", "verifcheck"), "-repo", tree, "-verif", VERIF, "-prop", pid, "-no-evidence"])
                return pid, rc, [l.strip() for l in out.splitlines() if l.startswith("  ")]
            from concurrent.futures import ThreadPoolExecutor
            with ThreadPoolExecutor(4) as ex:
                for pid, rc, lines in ex.map(one, ["C%02d" % i for i in range(1, 21)]):
                    if rc != 0:
                        detected[pid] = lines[:4]
        finally:
            run(["git", "-C", REPO, "worktree", "remove", "--force", tree]); shutil.rmtree(tree, ignore_errors=True)
        ran.append("patch applied to a scratch worktree of /repo HEAD, all 20 quick checks run on it, worktree removed")
    result["detected_by"] = sorted(detected)
    result["reports"] = detected
    result["ran"] = ran
    print(json.dumps(result, indent=1)[:6000])
    if ok:
        d = os.path.join(VERIF, "seeded", seed_id)
        os.makedirs(d, exist_ok=True)
        shutil.copy(patch, os.path.join(d, "patch.diff"))
        open(os.path.join(d, "demo_test.go.txt"), "w").write(demo_txt)
        if os.path.exists(os.path.join(seed, "notes.md")):
            shutil.copy(os.path.join(seed, "notes.md"), os.path.join(d, "notes.md"))
        needs = ""
        if os.path.exists(os.path.join(seed, "notes.md")):
            needs = open(os.path.join(seed, "notes.md")).read()[:1200]
        meta = {"property": prop, "breaks": prop, "needs": needs, "detected_by": sorted(detected), "reports": detected,
                "ran": ran, "demo_dir": demo_dir, "confirmed": True}
        json.dump(meta, open(os.path.join(d, "meta.json"), "w"), indent=1)


if __name__ == "__main__":
    main()
