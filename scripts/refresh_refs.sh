#!/bin/bash
# To be run by hand after /repo changed on purpose (a fix: commit) and the new tree was confirmed:
# regenerates what is pinned to the committed tree: the catalogue mutants (their diffs must re-apply),
# the reference list of functions used for rename detection, and the manifest texts.
set -euo pipefail
cd "$(dirname "$0")/.."
. scripts/env.sh
./scripts/build.sh
python3 scripts/mkmutants.py | tail -1
./bin/verifcheck -snapshot
python3 scripts/mkmanifest.py
echo "now run every quick check, then scripts/refresh_floors.py, then scripts/recheck_seeds.py"
