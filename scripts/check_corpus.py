#!/usr/bin/env python3
"""Lists the patches of the self-test corpus (mutants, seeded changes, refactorings) that no longer apply to
/repo's working tree. To be run by hand after a fix: commit; a patch that stopped applying is ported
(scratch worktree, `git apply --3way`, resolve, `git diff HEAD`) so that the thorough tier keeps exercising it."""
import glob, subprocess, sys
bad = 0
pats = glob.glob("/verif/mutants/*/*.diff") + glob.glob("/verif/seeded/*/patch.diff") + glob.glob("/verif/refactorings/*.diff")
for d in sorted(pats):
    p = subprocess.run(["git", "-C", "/repo", "apply", "--check", "--whitespace=nowarn", d], capture_output=True, text=True)
    if p.returncode != 0:
        bad += 1
        print("DOES NOT APPLY", d, p.stderr.strip().splitlines()[0] if p.stderr.strip() else "")
print(len(pats), "patches,", bad, "do not apply")
sys.exit(1 if bad else 0)
