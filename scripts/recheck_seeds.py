#!/usr/bin/env python3
"""Re-runs every kept seeded change against all 20 quick checks and refreshes meta.json: `detected_by` is what
reports it now, `detected_by_initially` what reported it when it was first filed. Each worker applies the patches to
its own scratch worktree of /repo HEAD (removed at the end), so /repo itself is not touched."""
import glob, json, os, shutil, subprocess, sys
from concurrent.futures import ThreadPoolExecutor
REPO, VERIF = "/repo", "/verif"
WORKERS = 5
def run(cmd):
    p = subprocess.run(cmd, capture_output=True, text=True)
    return p.returncode, p.stdout + p.stderr
only = sys.argv[1:]
metas = [mf for mf in sorted(glob.glob(os.path.join(VERIF, "seeded", "*", "meta.json")))
         if not only or os.path.basename(os.path.dirname(mf)) in only]
def worker(k):
    tree = "/tmp/recheck_wt_%d" % k
    run(["git", "-C", REPO, "worktree", "remove", "--force", tree])
    rc, out = run(["git", "-C", REPO, "worktree", "add", "-q", "--detach", tree, "HEAD"])
    assert rc == 0, out
    lines = []
    try:
        for mf in metas[k::WORKERS]:
            d = os.path.dirname(mf)
            meta = json.load(open(mf))
            meta.setdefault("detected_by_initially", meta.get("detected_by", []))
            rc, out = run(["git", "-C", tree, "apply", "--whitespace=nowarn", os.path.join(d, "patch.diff")])
            if rc != 0:
                lines.append(os.path.basename(d) + " patch does not apply"); continue
            det = {}
            try:
                for i in range(1, 21):
                    pid = "C%02d" % i
                    rc, out = run([os.path.join(VERIF, "bin", "verifcheck"), "-repo", tree, "-verif", VERIF, "-prop", pid, "-no-evidence"])
                    if rc != 0:
                        det[pid] = [l.strip() for l in out.splitlines() if l.startswith("  ")][:4]
            finally:
                run(["git", "-C", tree, "checkout", "--", "."]); run(["git", "-C", tree, "clean", "-fdq"])
            meta["detected_by"], meta["reports"] = sorted(det), det
            json.dump(meta, open(mf, "w"), indent=1)
            lines.append("%s -> %s" % (os.path.basename(d), sorted(det)))
    finally:
        run(["git", "-C", REPO, "worktree", "remove", "--force", tree]); shutil.rmtree(tree, ignore_errors=True)
    return lines
with ThreadPoolExecutor(WORKERS) as ex:
    for lines in ex.map(worker, range(WORKERS)):
        for l in lines:
            print(l)
missed = []
for mf in metas:
    m = json.load(open(mf))
    if m.get("property") not in m.get("detected_by", []):
        missed.append(os.path.basename(os.path.dirname(mf)))
print("not reported by their own property:", missed)
