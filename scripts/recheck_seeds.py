#!/usr/bin/env python3
"""Re-runs every kept seeded change against all 20 quick checks (patch applied to
/repo, then undone) and refreshes meta.json: `detected_by` is what reports it now,
`detected_by_initially` what reported it when it was first filed."""
import glob, json, os, subprocess, sys
REPO, VERIF = "/repo", "/verif"
def run(cmd):
    p = subprocess.run(cmd, capture_output=True, text=True)
    return p.returncode, p.stdout + p.stderr
rc, out = run(["git", "-C", REPO, "status", "--porcelain"])
assert out.strip() == "", "/repo not clean"
only = sys.argv[1:]
for mf in sorted(glob.glob(os.path.join(VERIF, "seeded", "*", "meta.json"))):
    d = os.path.dirname(mf)
    if only and os.path.basename(d) not in only:
        continue
    meta = json.load(open(mf))
    meta.setdefault("detected_by_initially", meta.get("detected_by", []))
    rc, out = run(["git", "-C", REPO, "apply", "--whitespace=nowarn", os.path.join(d, "patch.diff")])
    if rc != 0:
        print(os.path.basename(d), "patch does not apply"); continue
    det = {}
    try:
        for i in range(1, 21):
            pid = "C%02d" % i
            rc, out = run([os.path.join(VERIF, "bin", "verifcheck"), "-repo", REPO, "-verif", VERIF, "-prop", pid, "-no-evidence"])
            if rc != 0:
                det[pid] = [l.strip() for l in out.splitlines() if l.startswith("  ")][:4]
    finally:
        run(["git", "-C", REPO, "checkout", "--", "."]); run(["git", "-C", REPO, "clean", "-fdq"])
    meta["detected_by"], meta["reports"] = sorted(det), det
    json.dump(meta, open(mf, "w"), indent=1)
    print(os.path.basename(d), "->", sorted(det))
